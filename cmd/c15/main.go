// C15 — text parsers return a well-formed value or an error for every input
// string; the graph reader loads exactly the lines before the first malformed
// line.
//
// Bounded-exhaustive enumeration (no sampling):
//   - every string of up to N letters over a delimiter alphabet (letters include
//     multi-character tokens such as `"^^type:` and a full RFC3339 instant) into
//     every parser;
//   - per-parser focused alphabets to a greater length;
//   - every truncation, single deletion, single duplication and delimiter
//     injection of the printed forms of a value universe;
//   - every sequence of up to K lines over a line alphabet into io.ReadIntoGraph.
//
// Oracle: no panic; never (nothing, nil error); a returned value is well formed
// (non-nil parts, and the package's own constructors accept its components);
// accepted => its String() is accepted again as a structurally equal value.
package main

import (
	"encoding/json"
	"fmt"
	"hash/fnv"
	"os"
	"regexp"
	"runtime/debug"
	"runtime/pprof"
	"sort"
	"strings"
	"sync"
	"sync/atomic"
	"time"

	bwio "github.com/google/badwolf/io"
	"github.com/google/badwolf/storage"
	"github.com/google/badwolf/storage/memory"
	"github.com/google/badwolf/triple"
	"github.com/google/badwolf/triple/literal"
	"github.com/google/badwolf/triple/node"
	"github.com/google/badwolf/triple/predicate"

	"verif/common"
	"verif/model"
	"verif/vals"
)

// ---- the parsers under test ----------------------------------------------------

const boundMax = 1 // the bounded builder used throughout: texts/blobs of at most 1 byte (so that over-long values are within the enumerated lengths)

var bounded = literal.NewBoundedBuilder(boundMax)

var parsers = []string{"node", "predicate", "literal", "literal-bounded", "object", "object-bounded", "triple"}

// result of one parse, reduced to what the oracle needs.
type outcome struct {
	err     error
	missing string // non-empty: what is nil / empty in the returned value
	illform string // non-empty: why the package's constructors would refuse the value
	key     string // offset-aware structural key
	text    string // String() of the value
}

func wfNode(n *node.Node) (missing, ill string) {
	if n == nil {
		return "node is nil", ""
	}
	if n.Type() == nil || n.ID() == nil {
		return "node has a nil type or id", ""
	}
	if _, err := node.NewNodeFromStrings(n.Type().String(), n.ID().String()); err != nil {
		return "", "node constructor refuses it: " + err.Error()
	}
	return "", ""
}

func wfPred(p *predicate.Predicate) (missing, ill string) {
	if p == nil {
		return "predicate is nil", ""
	}
	var err error
	if p.Type() == predicate.Immutable {
		_, err = predicate.NewImmutable(string(p.ID()))
	} else {
		ta, e := p.TimeAnchor()
		if e != nil || ta == nil {
			return "temporal predicate without anchor", ""
		}
		_, err = predicate.NewTemporal(string(p.ID()), *ta)
	}
	if err != nil {
		return "", "predicate constructor refuses it: " + err.Error()
	}
	return "", ""
}

func wfLit(l *literal.Literal, b literal.Builder) (missing, ill string) {
	if l == nil {
		return "literal is nil", ""
	}
	if l.Interface() == nil {
		return "literal boxes nil", ""
	}
	if _, err := b.Build(l.Type(), l.Interface()); err != nil {
		return "", "builder refuses it: " + err.Error()
	}
	return "", ""
}

func wfObj(o *triple.Object, b literal.Builder) (missing, ill string) {
	switch vals.ObjKind(o) {
	case "nil":
		return "object is nil", ""
	case "invalid":
		return "object boxes nothing", ""
	case "node":
		n, _ := o.Node()
		return wfNode(n)
	case "predicate":
		p, _ := o.Predicate()
		return wfPred(p)
	}
	l, _ := o.Literal()
	return wfLit(l, b)
}

func builderOf(parser string) literal.Builder {
	if strings.HasSuffix(parser, "-bounded") {
		return bounded
	}
	return literal.DefaultBuilder()
}

// parse runs one parser on one input.
func parse(parser, in string) (o outcome) {
	b := builderOf(parser)
	switch parser {
	case "node":
		n, err := node.Parse(in)
		if o.err = err; err != nil {
			return
		}
		if o.missing, o.illform = wfNode(n); o.missing == "" {
			o.key, o.text = model.NodeKey(n), n.String()
		}
	case "predicate":
		p, err := predicate.Parse(in)
		if o.err = err; err != nil {
			return
		}
		if o.missing, o.illform = wfPred(p); o.missing == "" {
			o.key, o.text = vals.PredKey(p, true), p.String()
		}
	case "literal", "literal-bounded":
		l, err := b.Parse(in)
		if o.err = err; err != nil {
			return
		}
		if o.missing, o.illform = wfLit(l, b); o.missing == "" {
			o.key, o.text = model.LitKey(l), l.String()
		}
	case "object", "object-bounded":
		ob, err := triple.ParseObject(in, b)
		if o.err = err; err != nil {
			return
		}
		if o.missing, o.illform = wfObj(ob, b); o.missing == "" {
			o.key, o.text = vals.ObjKey(ob, true), ob.String()
		}
	case "triple":
		t, err := triple.Parse(in, b)
		if o.err = err; err != nil {
			return
		}
		if t == nil {
			o.missing = "triple is nil"
			return
		}
		if t.Subject() == nil || t.Predicate() == nil || t.Object() == nil {
			o.missing = "triple has a nil part"
			return
		}
		if o.missing, o.illform = wfNode(t.Subject()); o.missing != "" {
			return
		}
		if m, i := wfPred(t.Predicate()); m != "" || i != "" {
			if o.missing = m; o.illform == "" {
				o.illform = i
			}
			if m != "" {
				return
			}
		}
		if m, i := wfObj(t.Object(), b); m != "" || i != "" {
			if o.missing = m; o.illform == "" {
				o.illform = i
			}
			if m != "" {
				return
			}
		}
		o.key, o.text = vals.TripleKey(t, true), t.String()
	default:
		common.Machinery("unknown parser %q", parser)
	}
	return
}

// ---- oracle ---------------------------------------------------------------------

// verdict of one (parser, input): shape == "" means the property holds.
// ---- termination watchdog -------------------------------------------------------------------
//
// Every call of a parser is registered in a slot while it runs. A watchdog looks at the slots once a second: a call
// that has been running for stallLimit is reported as a violation of the termination clause and the run ends there
// (the stuck goroutine cannot be stopped). The parsers take microseconds; the limit is a minute.

const stallLimit = 60 * time.Second

type callSlot struct {
	mu     sync.Mutex
	parser string
	in     string
	since  time.Time
}

var (
	callSlots = make([]callSlot, 256)
	freeSlots = func() chan int {
		c := make(chan int, 256)
		for i := 0; i < 256; i++ {
			c <- i
		}
		return c
	}()
)

func startWatchdog(r *common.Run) {
	go func() {
		for {
			time.Sleep(time.Second)
			for i := range callSlots {
				sl := &callSlots[i]
				sl.mu.Lock()
				parser, in, since := sl.parser, sl.in, sl.since
				sl.mu.Unlock()
				if parser != "" && time.Since(since) > stallLimit {
					r.Fail(common.Failure{Check: "parse", Class: classify(parser, in), Shape: "does-not-return", Case: pcase{Parser: parser, Input: vals.Str(in), Bound: boundMax},
						Detail: fmt.Sprintf("%s parser on %q has not returned after %v (every other call of this run took microseconds)", parser, in, stallLimit)})
					r.SetCapped()
					r.Finish()
				}
			}
		}
	}()
}

func check(parser, in string) (shape, detail string, accepted bool) {
	var o outcome
	slot := <-freeSlots
	sl := &callSlots[slot]
	sl.mu.Lock()
	sl.parser, sl.in, sl.since = parser, in, time.Now()
	sl.mu.Unlock()
	defer func() {
		sl.mu.Lock()
		sl.parser = ""
		sl.mu.Unlock()
		freeSlots <- slot
	}()
	if p := vals.Guard(func() { o = parse(parser, in) }); p != nil {
		return p.Shape(), fmt.Sprintf("%s parser on %q panics: %s", parser, in, p.Msg), false
	}
	if o.err != nil {
		return "", "", false
	}
	if o.missing != "" {
		return "nothing-with-nil-error", fmt.Sprintf("%s parser on %q returns no error and %s", parser, in, o.missing), false
	}
	if o.illform != "" {
		return "value-refused-by-constructor", fmt.Sprintf("%s parser on %q returns %s; %s", parser, in, o.text, o.illform), true
	}
	var o2 outcome
	if p := vals.Guard(func() { o2 = parse(parser, o.text) }); p != nil {
		return "accepted-then-" + p.Shape(), fmt.Sprintf("%s parser accepts %q, prints %q, which panics: %s", parser, in, o.text, p.Msg), true
	}
	if o2.err != nil {
		return "accepted-then-own-print-rejected", fmt.Sprintf("%s parser accepts %q, prints %q, which it rejects: %v", parser, in, o.text, o2.err), true
	}
	if o2.missing != "" || o2.key != o.key {
		return "accepted-then-own-print-differs", fmt.Sprintf("%s parser accepts %q as %s, prints %q, which parses to %s %s", parser, in, o.key, o.text, o2.key, o2.missing), true
	}
	return "", "", true
}

// ---- input classifier (a predicate over the parser name and the input alone) ------

var litTypes = map[string]bool{"bool": true, "int64": true, "float64": true, "text": true, "blob": true}

const (
	litDelim  = `"^^type:`
	predDelim = `"@[`
)

// The conditions below describe the input relative to where the parser under
// test splits it: at the first occurrence of the separator (unchanged tree) or
// at the last one (after fixes/C05-*-parse-last-delimiter.patch). Which one is
// in force is found out by one probe parse per separator at start-up; the
// probe selects the classifier's vocabulary only, never a verdict.
var (
	litIndex  = strings.Index
	predIndex = strings.Index
)

func calibrate(r *common.Run) {
	mode := func(last bool) string {
		if last {
			return "last-occurrence"
		}
		return "first-occurrence"
	}
	litLast, predLast := false, false
	vals.Guard(func() {
		if l, err := literal.DefaultBuilder().Parse(`"a"^^type:x"^^type:text`); err == nil && l != nil && l.Type() == literal.Text {
			litLast = true
		}
	})
	vals.Guard(func() {
		if p, err := predicate.Parse(`"@["@[]`); err == nil && p != nil && p.ID() == "@[" {
			predLast = true
		}
	})
	if litLast {
		litIndex = strings.LastIndex
	}
	if predLast {
		predIndex = strings.LastIndex
	}
	if r != nil {
		r.Set("classifier_literal_separator", mode(litLast))
		r.Set("classifier_predicate_separator", mode(predLast))
	}
}

// literalCond names the first applicable condition of a literal text.
func literalCond(raw string) string {
	if raw == "" || raw[0] != '"' {
		return ""
	}
	idx := litIndex(raw, litDelim)
	if idx < 0 {
		return ""
	}
	if idx == 0 {
		return "literal-opening-quote-is-the-type-delimiter"
	}
	typ := raw[idx+len(litDelim):]
	if !litTypes[typ] {
		return "literal-type-unknown"
	}
	if typ == "blob" && idx-1 < 2 {
		return "literal-blob-value-shorter-than-brackets"
	}
	return ""
}

func predicateCond(raw string) string {
	if raw == "" || raw[0] != '"' {
		return ""
	}
	idx := predIndex(raw, predDelim)
	if idx < 0 {
		return ""
	}
	if idx+3 == len(raw) {
		return "predicate-ends-with-quote-at-bracket"
	}
	ta := raw[idx+3 : len(raw)-1]
	if ta == `"` {
		return "predicate-anchor-is-a-lone-quote"
	}
	if raw[:idx+1] == `""` && (ta == "" || isInstant(strings.Trim(ta, `"`))) {
		return "predicate-id-empty"
	}
	return ""
}

func isInstant(s string) bool { _, err := time.Parse(time.RFC3339Nano, s); return err == nil }

func nodeCond(raw string) string {
	if raw == "_" {
		return "node-lone-underscore"
	}
	return ""
}

func objectCond(raw string) string {
	if c := nodeCond(raw); c != "" {
		return c
	}
	if raw == "" || (raw[0] != '"') {
		return ""
	}
	if c := literalCond(raw); c != "" {
		return c
	}
	return predicateCond(raw)
}

var (
	pSplit = regexp.MustCompile(`>\s+"`)
	oSplit = regexp.MustCompile(`(]\s+/)|(]\s+")`)
)

func tripleCond(raw string) string {
	ip, io := pSplit.FindStringIndex(raw), oSplit.FindStringIndex(raw)
	if ip == nil || io == nil {
		return ""
	}
	if io[0]+1 < ip[1]-1 {
		return "triple-object-separator-before-predicate-separator"
	}
	ss, sp, so := raw[:ip[0]+1], raw[ip[1]-1:io[0]+1], raw[io[1]-1:]
	if c := nodeCond(strings.TrimSpace(ss)); c != "" {
		return c
	}
	if c := predicateCond(strings.TrimSpace(sp)); c != "" {
		return c
	}
	if c := objectCond(strings.TrimSpace(so)); c != "" {
		return c
	}
	return ""
}

// classify: the first input condition (evaluated for the parser in question:
// a node parser never sees a literal condition) that applies to the input.
func classify(parser, in string) string {
	raw := strings.TrimSpace(in)
	cond := ""
	switch parser {
	case "node":
		if raw == "" {
			cond = "blank-input"
		} else {
			cond = nodeCond(raw)
		}
	case "predicate":
		cond = predicateCond(raw)
	case "literal", "literal-bounded":
		cond = literalCond(raw)
	case "object", "object-bounded":
		if raw == "" {
			cond = "blank-input"
		} else {
			cond = objectCond(raw)
		}
	case "triple":
		cond = tripleCond(raw)
	}
	if cond == "" {
		// no known condition applies: keep the parser in the class so that
		// nothing unrelated can be matched by a listed finding
		return parser + ":other-input"
	}
	return cond
}

type pcase struct {
	Parser string   `json:"parser"`
	Input  vals.Str `json:"input"`
	Bound  int      `json:"bounded_builder_max,omitempty"`
}

// stats shared by all passes.
type stats struct {
	evals, accepted, rejected, failed int64
	shards                            [64]struct {
		sync.Mutex
		m map[uint64]struct{}
	}
}

// distinctAccepted records one accepted (parser, input) pair; passes overlap,
// so the same pair may be seen several times.
func (st *stats) distinctAccepted(parser, in string) {
	h := fnv.New64a()
	h.Write([]byte(parser))
	h.Write([]byte{0})
	h.Write([]byte(in))
	k := h.Sum64()
	sh := &st.shards[k%64]
	sh.Lock()
	if sh.m == nil {
		sh.m = map[uint64]struct{}{}
	}
	sh.m[k] = struct{}{}
	sh.Unlock()
}

func (st *stats) distinct() int {
	n := 0
	for i := range st.shards {
		n += len(st.shards[i].m)
	}
	return n
}

func (st *stats) one(r *common.Run, parser, in, pass string) {
	shape, detail, acc := check(parser, in)
	atomic.AddInt64(&st.evals, 1)
	if shape != "" {
		atomic.AddInt64(&st.failed, 1)
		c := pcase{Parser: parser, Input: vals.Str(in)}
		if strings.HasSuffix(parser, "-bounded") {
			c.Bound = boundMax
		}
		r.Fail(common.Failure{Check: "parse", Class: classify(parser, in), Shape: shape, Case: c, Detail: "[" + pass + "] " + detail})
		return
	}
	if acc {
		atomic.AddInt64(&st.accepted, 1)
		st.distinctAccepted(parser, in)
	} else {
		atomic.AddInt64(&st.rejected, 1)
	}
}

// ---- pass G: all strings over the general alphabet -----------------------------------

const instant = "2006-01-02T15:04:05Z"

var general = []string{"/", "_", ":", "<", ">", `"`, "@", "[", "]", "^", ",", " ", "\t", "t", "1", "a", `\`,
	"type:", "bool", "int64", "blob", "text", instant, litDelim, predDelim}

// focused alphabets: fewer letters, longer strings, one per parser family.
var focused = map[string][]string{
	"node":      {"/", "_", ":", "<", ">", "a", " ", `"`},
	"predicate": {`"`, predDelim, "]", "a", `\`, "@", "[", instant, " "},
	"literal":   {`"`, litDelim, "^", "bool", "int64", "float64", "text", "blob", "1", "t", "[", "]", " ", "a"},
	"object":    {"/", "_", "<", ">", `"`, litDelim, predDelim, "]", "a", "text", "blob", "1", instant},
	"triple":    {">", "]", " ", "\t", `"`, "/", "a", "<", "_", "[", "@"},
}

func parsersFor(family string) []string {
	switch family {
	case "literal":
		return []string{"literal", "literal-bounded"}
	case "object":
		return []string{"object", "object-bounded"}
	}
	return []string{family}
}

func passStrings(r *common.Run, st *stats) {
	gl := r.Pick(4, 5)
	n := vals.CountStrings(len(general), 0, gl)
	var seen int64
	done := vals.AllStrings(general, 0, gl, r.OutOfTime, func(s string) {
		atomic.AddInt64(&seen, 1)
		for _, p := range parsers {
			st.one(r, p, s, "all-strings")
		}
	})
	if !done {
		r.SetCapped()
	}
	r.Set("general_alphabet_letters", len(general))
	r.Set("general_max_length", gl)
	r.Set("general_strings", int(seen))
	if done && int(seen) != n {
		common.Machinery("string enumeration visited %d strings, expected %d", seen, n)
	}
	fl := map[string]int{"node": r.Pick(6, 8), "predicate": r.Pick(6, 7), "literal": r.Pick(5, 6), "object": r.Pick(5, 6), "triple": r.Pick(6, 7)}
	fams := []string{"node", "predicate", "literal", "object", "triple"}
	total := 0
	for _, fam := range fams {
		var cnt int64
		ps := parsersFor(fam)
		done := vals.AllStrings(focused[fam], 0, fl[fam], r.OutOfTime, func(s string) {
			atomic.AddInt64(&cnt, 1)
			for _, p := range ps {
				st.one(r, p, s, "focused-"+fam)
			}
		})
		if !done {
			r.SetCapped()
		}
		r.Set("focused_"+fam+"_strings", int(cnt))
		r.Set("focused_"+fam+"_max_length", fl[fam])
		total += int(cnt)
	}
	r.Set("focused_strings", total)
}

// ---- pass C: components as letters, for the triple parser ------------------------------

var components = []string{"/a<a>", `"a"@[]`, `"a"@[` + instant + `]`, `"1"^^type:int64`, `"x"^^type:foo`, `"[1]"^^type:blob`,
	"\t", " ", ">", `"`, "]", "/", "_", "<", "a", predDelim, litDelim, "text"}

func passComponents(r *common.Run, st *stats) {
	l := r.Pick(4, 5)
	var cnt int64
	done := vals.AllStrings(components, 0, l, r.OutOfTime, func(s string) {
		atomic.AddInt64(&cnt, 1)
		st.one(r, "triple", s, "components")
		st.one(r, "object", s, "components")
	})
	if !done {
		r.SetCapped()
	}
	r.Set("component_letters", len(components))
	r.Set("component_max_length", l)
	r.Set("component_strings", int(cnt))
}

// ---- pass M: mutations of printed forms --------------------------------------------------

func printedForms(thorough bool) map[string][]string {
	z8 := time.FixedZone("", -8*3600)
	nodes := []*vals.Spec{vals.NodeSpec("/t", "a"), vals.NodeSpec("/t/u", `b"@[`), vals.NodeSpec("/_", "x]")}
	preds := []*vals.Spec{vals.ImmSpec("p"), vals.TempSpec("p", time.Date(2006, 1, 2, 15, 4, 5, 999999999, z8)), vals.ImmSpec(`q"]`), vals.TempSpec(`\`, model.T1), vals.ImmSpec(`say"^^type:text`)}
	lits := []*vals.Spec{vals.BoolSpec(true), vals.IntSpec(-1), vals.FloatSpec(1e21), vals.TextSpec(""), vals.TextSpec("ab"),
		vals.BlobSpec([]byte{}), vals.BlobSpec([]byte{1, 255}), vals.TextSpec(`"^^type:`)}
	if thorough {
		nodes = append(nodes, vals.NodeSpec("/é", "日"), vals.NodeSpec("/t", "_:b"))
		preds = append(preds, vals.ImmSpec(`a"@[b`), vals.ImmSpec("@["), vals.TempSpec("é", time.Date(1, 1, 1, 0, 0, 0, 1, time.UTC)))
		lits = append(lits, vals.FloatSpec(5e-324), vals.IntSpec(9223372036854775807), vals.TextSpec("^^type:"), vals.TextSpec("a b"), vals.BoolSpec(false))
	}
	out := map[string][]string{}
	pr := func(s *vals.Spec) string {
		v := vals.MustBuild(s)
		switch {
		case v.N != nil:
			return v.N.String()
		case v.P != nil:
			return v.P.String()
		case v.L != nil:
			return v.L.String()
		case v.O != nil:
			return v.O.String()
		}
		return v.T.String()
	}
	for _, s := range nodes {
		out["node"] = append(out["node"], pr(s))
	}
	for _, s := range preds {
		out["predicate"] = append(out["predicate"], pr(s))
		// the same id with its quotes spelled by other escapes the parser accepts: what it accepts must print to what it accepts
		if t := pr(s); strings.Contains(t, `\"`) {
			out["predicate"] = append(out["predicate"], strings.ReplaceAll(t, `\"`, `\x22`), strings.ReplaceAll(t, `\"`, `\u0022`))
		}
	}
	for _, s := range lits {
		out["literal"] = append(out["literal"], pr(s))
	}
	objs := []*vals.Spec{vals.ObjSpec(nodes[0]), vals.ObjSpec(preds[1]), vals.ObjSpec(lits[1]), vals.ObjSpec(lits[4]), vals.ObjSpec(lits[6])}
	for i, sn := range nodes {
		for j, sp := range preds {
			for k, so := range objs {
				if !thorough && (i+j+k)%2 == 1 {
					continue
				}
				out["triple"] = append(out["triple"], pr(vals.TripleSpec(sn, sp, so)))
			}
		}
	}
	return out
}

var injections = []string{`"`, predDelim, litDelim, "]", "[", "<", ">", "\t", " ", "/", "_", "^^", "@", `\`, "type:", "\n",
	// runs of letters whose case-folded form has another byte length, and invalid UTF-8: offsets taken on a folded copy
	"\u023a\u023a\u023a\u023a\u023a\u023a", "\u0130\u0130\u0130\u0130\u0130\u0130\u0130\u0130\u0130", "\u212a\u212a\u212a\u212a\u212a", "\xff\xfe\xfd\xfc\xfb"}

func mutations(s string) []string {
	seen := map[string]bool{}
	var out []string
	add := func(m string) {
		if !seen[m] {
			seen[m] = true
			out = append(out, m)
		}
	}
	for i := 0; i <= len(s); i++ {
		add(s[:i]) // truncation (prefix)
		add(s[i:]) // truncation (suffix)
		for _, inj := range injections {
			add(s[:i] + inj + s[i:])
		}
		if i < len(s) {
			add(s[:i] + s[i+1:])          // deletion of one byte
			add(s[:i+1] + s[i:])          // duplication of one byte
			add(s[:i] + "\x00" + s[i+1:]) // replacement by NUL
		}
	}
	return out
}

func passMutations(r *common.Run, st *stats) {
	forms := printedForms(r.Thorough())
	type job struct{ fam, in string }
	var jobs []job
	nforms := 0
	for _, fam := range []string{"node", "predicate", "literal", "triple"} {
		for _, f := range forms[fam] {
			nforms++
			for _, m := range mutations(f) {
				jobs = append(jobs, job{fam, m})
			}
		}
	}
	common.ParallelFor(len(jobs), func(i int) {
		j := jobs[i]
		for _, p := range parsersFor(j.fam) {
			st.one(r, p, j.in, "mutation")
		}
		if j.fam != "triple" {
			st.one(r, "object", j.in, "mutation")
		}
	})
	r.Set("mutated_forms", nforms)
	r.Set("mutants", len(jobs))
}


// ---- pass W: blank padding of printed forms ------------------------------------------------
//
// Callers other than the graph reader hand lines to the parsers untrimmed. Every printed form is
// padded with runs of blanks: lead and trail runs of every length up to the bound (longer than the
// longest component, so that offsets computed on one copy of the line and applied to a trimmed copy
// leave the string), and for triples runs of blanks after each separator.

func paddings(s string, lead, trail, inner int) []string {
	var out []string
	for _, ch := range []string{" ", "\t", " \t"} {
		for l := 0; l <= lead; l++ {
			for t := 0; t <= trail; t++ {
				if l == 0 && t == 0 {
					continue
				}
				out = append(out, strings.Repeat(ch, l)[:l]+s+strings.Repeat(ch, t)[:t])
			}
		}
		for k := 1; k <= inner; k++ {
			pad := strings.Repeat(ch, k)[:k]
			for i := 0; i < len(s); i++ {
				if s[i] == '\t' {
					out = append(out, s[:i+1]+pad+s[i+1:], s[:i]+pad+s[i:], pad+s[:i+1]+pad+s[i+1:])
				}
			}
		}
	}
	return out
}

func passPadding(r *common.Run, st *stats) {
	forms := printedForms(r.Thorough())
	lead, trail, inner := r.Pick(40, 96), r.Pick(3, 6), r.Pick(4, 12)
	type job struct{ fam, in string }
	var jobs []job
	for _, fam := range []string{"node", "predicate", "literal", "triple"} {
		for _, f := range forms[fam] {
			in := 0
			if fam == "triple" {
				in = inner
			}
			for _, m := range paddings(f, lead, trail, in) {
				jobs = append(jobs, job{fam, m})
			}
		}
	}
	common.ParallelFor(len(jobs), func(i int) {
		j := jobs[i]
		for _, p := range parsersFor(j.fam) {
			st.one(r, p, j.in, "padding")
		}
		if j.fam != "triple" {
			st.one(r, "object", j.in, "padding")
		}
	})
	r.Set("padding_max_lead", lead)
	r.Set("padded_strings", len(jobs))
}

// ---- the graph reader ------------------------------------------------------------------------

type line struct {
	Name string `json:"name"`
	Text string `json:"text"`
	kind string // valid | blank | malformed
	key  string
}

func readerLines(thorough bool) []line {
	v1 := vals.MustBuild(vals.TripleSpec(vals.NodeSpec("/t", "a"), vals.ImmSpec("p"), vals.ObjSpec(vals.NodeSpec("/t", "b")))).T
	v2 := vals.MustBuild(vals.TripleSpec(vals.NodeSpec("/t", "a"), vals.TempSpec("p", model.T1), vals.ObjSpec(vals.TextSpec("x y")))).T
	ls := []line{
		{Name: "valid1", Text: v1.String(), kind: "valid", key: vals.TripleKey(v1, true)},
		{Name: "valid2", Text: "  " + v2.String() + " \r", kind: "valid", key: vals.TripleKey(v2, true)},
		{Name: "blank", Text: "", kind: "blank"},
		{Name: "spaces", Text: " \t ", kind: "blank"},
		{Name: "garbage", Text: "xyz", kind: "malformed"},
		{Name: "truncated-triple", Text: "/t<a>\t\"p\"@[]", kind: "malformed"},
		{Name: "unknown-literal-type", Text: "/t<a>\t\"p\"@[]\t\"1\"^^type:foo", kind: "malformed"},
		{Name: "separators-out-of-order", Text: "] /> \"", kind: "malformed"},
		{Name: "empty-blob-brackets-missing", Text: "/t<a>\t\"p\"@[]\t\"\"^^type:blob", kind: "malformed"},
	}
	if thorough {
		ls = append(ls,
			line{Name: "bad-anchor", Text: "/t<a>\t\"p\"@[yesterday]\t/t<b>", kind: "malformed"})
	}
	return ls
}

type rcase struct {
	Lines     []string `json:"lines"` // names
	FinalEOL  bool     `json:"final_newline"`
	LongFirst int      `json:"long_first_line_bytes,omitempty"`
}

func lineByName(ls []line, n string) line {
	for _, l := range ls {
		if l.Name == n {
			return l
		}
	}
	common.Machinery("unknown line %q", n)
	return line{}
}

// checkReader feeds the lines to ReadIntoGraph and compares with the model:
// the valid lines before the first malformed line, in a set.
func checkReader(all []line, c rcase) (ok bool, class, shape, detail string) {
	var text strings.Builder
	want := map[string]bool{}
	wantLines, firstBad := 0, ""
	if c.LongFirst > 0 {
		// a valid line of exactly LongFirst bytes (newline included)
		base := vals.MustBuild(vals.TripleSpec(vals.NodeSpec("/t", "a"), vals.ImmSpec("long"), vals.ObjSpec(vals.TextSpec("")))).T.String()
		t := vals.MustBuild(vals.TripleSpec(vals.NodeSpec("/t", "a"), vals.ImmSpec("long"), vals.ObjSpec(vals.TextSpec(strings.Repeat("x", c.LongFirst-len(base)-1))))).T
		text.WriteString(t.String() + "\n")
		want[vals.TripleKey(t, true)] = true
		wantLines++
	}
	for i, n := range c.Lines {
		l := lineByName(all, n)
		text.WriteString(l.Text)
		if i < len(c.Lines)-1 || c.FinalEOL {
			text.WriteString("\n")
		}
		if firstBad == "" {
			switch l.kind {
			case "valid":
				want[l.key] = true
				wantLines++
			case "malformed":
				firstBad = l.Name
			}
		}
	}
	class = "reader:no-malformed-line"
	if firstBad != "" {
		class = "reader:first-malformed-line=" + firstBad
	}
	if c.LongFirst > 64*1024 {
		class = "reader:first-line-longer-than-64KiB"
	}
	st := memory.NewStore()
	g, err := st.NewGraph(model.Ctx, "?g")
	if err != nil {
		common.Machinery("NewGraph: %v", err)
	}
	var n int
	var rerr error
	if p := vals.Guard(func() {
		n, rerr = bwio.ReadIntoGraph(model.Ctx, g, strings.NewReader(text.String()), literal.DefaultBuilder())
	}); p != nil {
		return false, class, p.Shape(), fmt.Sprintf("lines %v: ReadIntoGraph panics: %s", c.Lines, p.Msg)
	}
	ts, err := model.ListTriples(g, storage.DefaultLookup)
	if err != nil {
		return false, class, "listing-error", err.Error()
	}
	var got, wantKeys []string
	for _, t := range ts {
		got = append(got, vals.TripleKey(t, true))
	}
	for k := range want {
		wantKeys = append(wantKeys, k)
	}
	sort.Strings(got)
	sort.Strings(wantKeys)
	d := fmt.Sprintf("lines %v (long first line: %d bytes): ReadIntoGraph = (%d, %v), graph holds %d triples; model: %d valid lines (%d distinct triples) before first malformed line %q",
		c.Lines, c.LongFirst, n, rerr, len(got), wantLines, len(wantKeys), firstBad)
	if !model.SameStrings(got, wantKeys) {
		if rerr == nil {
			return false, class, "loaded-set-differs-without-error", d
		}
		return false, class, "loaded-set-differs", d
	}
	if (rerr != nil) != (firstBad != "") {
		if rerr == nil {
			return false, class, "malformed-line-without-error", d
		}
		return false, class, "error-without-malformed-line", d
	}
	// latitude: with duplicate lines the count may be lines read or distinct triples
	if n != wantLines && n != len(wantKeys) {
		return false, class, "count-differs", d
	}
	return true, "", "", ""
}

func passReader(r *common.Run) {
	all := readerLines(r.Thorough())
	maxLines := r.Pick(3, 4)
	var cases []rcase
	var rec func(cur []string)
	rec = func(cur []string) {
		if len(cur) > 0 {
			cases = append(cases, rcase{Lines: append([]string{}, cur...), FinalEOL: true}, rcase{Lines: append([]string{}, cur...), FinalEOL: false})
		}
		if len(cur) == maxLines {
			return
		}
		for _, l := range all {
			rec(append(cur, l.Name))
		}
	}
	cases = append(cases, rcase{Lines: []string{}, FinalEOL: false})
	rec(nil)
	sort.SliceStable(cases, func(i, j int) bool { return len(cases[i].Lines) < len(cases[j].Lines) })
	nSeq := len(cases)
	// a long valid first line at the scanner's buffer boundary, followed by short lines
	for _, n := range []int{64*1024 - 1, 64 * 1024, 64*1024 + 1, 200 * 1024} {
		for _, rest := range [][]string{{}, {"valid1"}, {"valid1", "garbage"}, {"garbage"}} {
			cases = append(cases, rcase{Lines: rest, FinalEOL: true, LongFirst: n})
		}
	}
	var done int64
	common.ParallelFor(len(cases), func(i int) {
		if r.OutOfTime() {
			r.SetCapped()
			return
		}
		ok, c, sh, d := checkReader(all, cases[i])
		atomic.AddInt64(&done, 1)
		if !ok {
			r.Fail(common.Failure{Check: "reader", Class: c, Shape: sh, Case: cases[i], Detail: d})
		}
	})
	r.Set("reader_line_alphabet", len(all))
	r.Set("reader_max_lines", maxLines)
	r.Set("reader_sequences", nSeq)
	r.Set("reader_long_line_cases", len(cases)-nSeq)
	r.Add("evaluations", int(done))
	r.Sample(map[string]interface{}{"reader": cases[len(cases)/2]})
}

func main() {
	debug.SetGCPercent(400)
	if f := os.Getenv("VERIF_CPUPROF"); f != "" {
		w, _ := os.Create(f)
		pprof.StartCPUProfile(w)
	}
	r := common.Start("C15", "model_checking")
	calibrate(r)
	r.Replayer("parse", func(raw json.RawMessage) (bool, string) {
		var c pcase
		if err := json.Unmarshal(raw, &c); err != nil {
			common.Machinery("bad case: %v", err)
		}
		shape, detail, acc := check(c.Parser, string(c.Input))
		if shape == "" {
			return true, fmt.Sprintf("%s parser on %q: accepted=%v", c.Parser, string(c.Input), acc)
		}
		return false, shape + ": " + detail
	})
	r.Replayer("reader", func(raw json.RawMessage) (bool, string) {
		var c rcase
		if err := json.Unmarshal(raw, &c); err != nil {
			common.Machinery("bad case: %v", err)
		}
		ok, _, sh, d := checkReader(readerLines(true), c)
		if ok {
			return true, fmt.Sprintf("reader loads exactly the valid lines before the first malformed one for %v", c.Lines)
		}
		return ok, sh + ": " + d
	})
	r.MaybeReplay()
	startWatchdog(r)
	r.Assume("every string is in scope; 'well-formed' = non-nil parts and components that the package's own constructors (NewNodeFromStrings, NewImmutable/NewTemporal, Builder.Build of the same builder) accept")
	r.Assume("'random strings' of the property are replaced by exhaustive enumeration of all strings up to the stated lengths over delimiter alphabets whose letters include multi-character tokens, plus all single-step mutations of printed forms; longer or differently lettered inputs are not covered")
	r.Assume("reader: a line is 'malformed' when triple.Parse must reject it; blank lines are skipped; with duplicate lines the reported count may be lines read or distinct triples (both accepted)")
	r.Assume("termination: a call that has not returned after 60 s (the others take microseconds) is reported as not terminating and ends the run; no shorter wall-clock oracle is used")
	st := &stats{}
	passStrings(r, st)
	passComponents(r, st)
	passMutations(r, st)
	passPadding(r, st)
	r.Add("evaluations", int(st.evals))
	r.Set("parses_accepted_and_reprinted", int(st.accepted))
	r.Set("parses_rejected_with_error", int(st.rejected))
	r.Set("parses_failing_oracle", int(st.failed))
	r.Set("distinct_nontrivial", st.distinct())
	r.Set("states", r.Get("general_strings")+r.Get("focused_strings")+r.Get("component_strings")+r.Get("mutants")+r.Get("padded_strings"))
	r.Set("transitions", int(st.evals))
	r.Set("traces_validated_against_impl", int(st.evals))
	r.Set("parsers", strings.Join(parsers, ","))
	r.Sample(pcase{Parser: "predicate", Input: `"a"@[` + instant + `]`})
	r.Sample(pcase{Parser: "literal-bounded", Input: `"[1]"^^type:blob`, Bound: boundMax})
	passReader(r)
	r.Set("rule", "all strings up to the length bound over the general and focused alphabets, all strings of components, all single mutations of printed forms, every blank padding of printed forms up to the bound (lead, trail, after separators) -> every parser: no panic, never (nothing,nil), well-formed, accepted => reprint re-parses equal; all line sequences up to the bound -> ReadIntoGraph loads exactly the valid lines before the first malformed one; states = input strings enumerated (distinct within each pass; the passes overlap); transitions = parser invocations on them; distinct_nontrivial = distinct (parser, input) pairs that were ACCEPTED, i.e. reached the reprint/re-parse clause (64-bit FNV of the pair, counted in a set)")
	pprof.StopCPUProfile()
	r.Finish()
}
