package recog

import (
	"fmt"
	"go/ast"
	"go/parser"
	"go/token"
	"strconv"
)

// Context is a shortest way to reach a symbol from Start: tokens before and
// after the symbol's own yield.
type Context struct {
	Pre, Post []Kind
	// Via is the alternative and element position through which the symbol is
	// reached ("" for Start).
	Via AltRef
	Pos int
}

// Contexts computes, for every symbol reachable through productive siblings,
// a context of minimal total length (fixpoint over all occurrences).
func (t *Table) Contexts() map[string]Context {
	if t.ctx != nil {
		return t.ctx
	}
	a := t.Analyse()
	ctx := map[string]Context{t.Start: {}}
	cost := func(c Context) int { return len(c.Pre) + len(c.Post) }
	for changed := true; changed; {
		changed = false
		for _, s := range t.Syms {
			pc, ok := ctx[s]
			if !ok {
				continue
			}
			for _, alt := range t.Rules[s] {
				for k, e := range alt.Elems {
					if !e.IsSym() {
						continue
					}
					if _, defined := t.Rules[e.Sym]; !defined || !a.Productive[e.Sym] {
						continue
					}
					before, ok1 := t.MinYield(alt.Elems[:k])
					after, ok2 := t.MinYield(alt.Elems[k+1:])
					if !ok1 || !ok2 {
						continue
					}
					c := Context{Via: AltRef{s, alt.Idx}, Pos: k}
					c.Pre = append(append([]Kind{}, pc.Pre...), before...)
					c.Post = append(append([]Kind{}, after...), pc.Post...)
					if old, ok := ctx[e.Sym]; !ok || cost(c) < cost(old) {
						ctx[e.Sym] = c
						changed = true
					}
				}
			}
		}
	}
	t.ctx = ctx
	return ctx
}

// Witness builds a shortest statement whose derivation uses alternative r:
// shortest context of r.Sym + shortest yield of the alternative. ok is false
// when the symbol is unreachable or something needed is not productive.
func (t *Table) Witness(r AltRef) ([]Kind, bool) {
	alts, ok := t.Rules[r.Sym]
	if !ok || r.Idx >= len(alts) {
		return nil, false
	}
	c, ok := t.Contexts()[r.Sym]
	if !ok {
		return nil, false
	}
	mid, ok := t.MinYield(alts[r.Idx].Elems)
	if !ok {
		return nil, false
	}
	out := append(append(append([]Kind{}, c.Pre...), mid...), c.Post...)
	return out, true
}

// Sentences enumerates every derivable statement of at most maxLen tokens
// (leftmost derivations, alternatives in table order, pruned by the shortest
// completion). visit returns false to stop. For an unambiguous grammar every
// statement is visited once. The slice passed to visit is reused.
func (t *Table) Sentences(maxLen int, visit func([]Kind) bool) {
	a := t.Analyse()
	minOf := func(es []Elem) int {
		n := 0
		for _, e := range es {
			if !e.IsSym() {
				n++
			} else if a.Productive[e.Sym] {
				n += a.MinLen[e.Sym]
			} else {
				return 1 << 30
			}
		}
		return n
	}
	var out []Kind
	stop := false
	var rec func(stack []Elem)
	rec = func(stack []Elem) {
		if stop {
			return
		}
		if len(out)+minOf(stack) > maxLen {
			return
		}
		if len(stack) == 0 {
			if !visit(out) {
				stop = true
			}
			return
		}
		e := stack[0]
		if !e.IsSym() {
			out = append(out, e.Tok)
			rec(stack[1:])
			out = out[:len(out)-1]
			return
		}
		for _, alt := range t.Rules[e.Sym] {
			ns := make([]Elem, 0, len(alt.Elems)+len(stack)-1)
			ns = append(ns, alt.Elems...)
			ns = append(ns, stack[1:]...)
			rec(ns)
		}
	}
	if len(a.LeftRecursive) > 0 {
		return
	}
	rec([]Elem{{Sym: t.Start}})
}

// SearchWitness looks, among all statements of at most maxLen tokens, for the
// first one whose deterministic derivation (GreedyTrace) is accepted and uses
// r. It is the fallback when Witness's shortest candidate is not taken that
// way. budget bounds the number of statements inspected.
func (t *Table) SearchWitness(r AltRef, maxLen, budget int) ([]Kind, bool) {
	return t.SearchWitnessFunc(r, maxLen, budget, nil)
}

// SearchWitnessFunc is SearchWitness with an extra acceptance test on the
// statement (for instance "renders to text").
func (t *Table) SearchWitnessFunc(r AltRef, maxLen, budget int, accept func([]Kind) bool) ([]Kind, bool) {
	var found []Kind
	n := 0
	t.Sentences(maxLen, func(ks []Kind) bool {
		n++
		if n > budget {
			return false
		}
		tr := t.GreedyTrace(ks)
		if tr.Accepted && tr.Uses(r) && (accept == nil || accept(ks)) {
			found = append([]Kind{}, ks...)
			return false
		}
		return true
	})
	return found, found != nil
}

// ExtractStringTable reads a Go source file and returns the string literals
// of the first `[]string{...}` composite literal inside function fn (the shape
// of the accept/reject tables in bql/grammar/grammar_test.go).
func ExtractStringTable(path, fn string) ([]string, error) {
	fset := token.NewFileSet()
	f, err := parser.ParseFile(fset, path, nil, 0)
	if err != nil {
		return nil, err
	}
	for _, d := range f.Decls {
		fd, ok := d.(*ast.FuncDecl)
		if !ok || fd.Name.Name != fn || fd.Body == nil {
			continue
		}
		var out []string
		var ferr error
		found := false
		ast.Inspect(fd.Body, func(n ast.Node) bool {
			if found {
				return false
			}
			cl, ok := n.(*ast.CompositeLit)
			if !ok {
				return true
			}
			at, ok := cl.Type.(*ast.ArrayType)
			if !ok || at.Len != nil {
				return true
			}
			if id, ok := at.Elt.(*ast.Ident); !ok || id.Name != "string" {
				return true
			}
			found = true
			for _, e := range cl.Elts {
				bl, ok := e.(*ast.BasicLit)
				if !ok || bl.Kind != token.STRING {
					ferr = fmt.Errorf("%s: non-literal element in string table of %s", path, fn)
					return false
				}
				s, err := strconv.Unquote(bl.Value)
				if err != nil {
					ferr = err
					return false
				}
				out = append(out, s)
			}
			return false
		})
		if ferr != nil {
			return nil, ferr
		}
		if !found {
			return nil, fmt.Errorf("%s: no []string table in %s", path, fn)
		}
		return out, nil
	}
	return nil, fmt.Errorf("%s: function %s not found", path, fn)
}
