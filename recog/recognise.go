package recog

import (
	"fmt"
	"sync"

	"github.com/google/badwolf/bql/lexer"
)

// Verdict is the answer of the membership test for one token sequence (the
// sequence excludes the lexer's terminal EOF token; an ERROR token is an
// ordinary kind that no grammar rule mentions).
type Verdict struct {
	// Derivable: the whole sequence is a statement derivable from Start.
	Derivable bool
	// Greedy: it is derivable by a derivation in which no symbol takes its
	// empty alternative while the next token could start one of its non-empty
	// alternatives ("each optional part is present whenever that part's first
	// token is the next token"). Greedy implies Derivable.
	Greedy bool
	// Viable: the sequence is a prefix of some derivable statement (assuming
	// every symbol is productive, which Analyse reports).
	Viable bool
}

// posSet is a set of token positions (inputs of up to 255 tokens).
type posSet [4]uint64

func (p *posSet) add(i int)      { p[i>>6] |= 1 << uint(i&63) }
func (p *posSet) has(i int) bool { return p[i>>6]&(1<<uint(i&63)) != 0 }
func (p *posSet) empty() bool    { return p[0]|p[1]|p[2]|p[3] == 0 }
func (p *posSet) or(q posSet) {
	for i := range p {
		p[i] |= q[i]
	}
}

// MaxTokens is the longest input Recognise handles.
const MaxTokens = 255

type memoVal struct {
	ends  posSet
	state uint8 // 0 unknown, 1 in progress, 2 done
}

type deriver struct {
	t      *Table
	toks   []Kind
	greedy bool
	memo   []memoVal // sym*(len+1)+pos
	dirty  []int     // memo entries touched (the slice is pooled)
	viable bool
	err    error
}

var derivers sync.Pool

// compiled form of the table (indices instead of names).
type cElem struct {
	sym int // -1: token
	tok Kind
}
type cAlt struct {
	elems []cElem
	first KindSet // tokens that can start a non-empty yield
}
type compiled struct {
	index map[string]int
	rules [][]cAlt
	start int
}

func (t *Table) compile() *compiled {
	if t.comp != nil {
		return t.comp
	}
	c := &compiled{index: map[string]int{}, start: -1}
	for i, s := range t.Syms {
		c.index[s] = i
	}
	if i, ok := c.index[t.Start]; ok {
		c.start = i
	}
	c.rules = make([][]cAlt, len(t.Syms))
	for i, s := range t.Syms {
		for _, a := range t.Rules[s] {
			ca := cAlt{}
			for _, e := range a.Elems {
				if e.IsSym() {
					j, ok := c.index[e.Sym]
					if !ok {
						j = -2 // undefined symbol: derives nothing
					}
					ca.elems = append(ca.elems, cElem{sym: j})
				} else {
					ca.elems = append(ca.elems, cElem{sym: -1, tok: e.Tok})
				}
			}
			ca.first, _ = t.AltFirst(a.Elems)
			c.rules[i] = append(c.rules[i], ca)
		}
	}
	t.comp = c
	return c
}

// ends returns the positions at which a yield of sym starting at pos can end.
func (d *deriver) ends(c *compiled, sym, pos int) posSet {
	if sym < 0 {
		return posSet{}
	}
	m := &d.memo[sym*(len(d.toks)+1)+pos]
	switch m.state {
	case 2:
		return m.ends
	case 1:
		// sym reached itself at the same position without consuming a token
		if d.err == nil {
			d.err = fmt.Errorf("left recursion through %s", d.t.Syms[sym])
		}
		return posSet{}
	}
	m.state = 1
	d.dirty = append(d.dirty, sym*(len(d.toks)+1)+pos)
	alts := c.rules[sym]
	n := len(d.toks)
	// greedy: the empty alternative is barred when the next token can start a
	// non-empty alternative of this symbol.
	barEmpty := false
	if d.greedy && pos < n {
		for i := range alts {
			if len(alts[i].elems) > 0 && alts[i].first[d.toks[pos]] {
				barEmpty = true
				break
			}
		}
	}
	var set posSet
	for i := range alts {
		a := &alts[i]
		if len(a.elems) == 0 {
			if !barEmpty {
				set.add(pos)
			}
			continue
		}
		var cur posSet
		cur.add(pos)
		for _, e := range a.elems {
			var next posSet
			for q := pos; q <= n; q++ {
				if !cur.has(q) {
					continue
				}
				if q == n {
					// input exhausted with elements still to derive: the input is a
					// prefix of a longer derivable string
					d.viable = true
				}
				if e.sym == -1 {
					if q < n && d.toks[q] == e.tok {
						next.add(q + 1)
					}
					continue
				}
				next.or(d.ends(c, e.sym, q))
			}
			cur = next
			if cur.empty() {
				break
			}
		}
		set.or(cur)
	}
	m = &d.memo[sym*(len(d.toks)+1)+pos]
	m.ends, m.state = set, 2
	return set
}

func (t *Table) derive(toks []Kind, greedy bool) (complete, viable bool, err error) {
	if len(toks) > MaxTokens {
		return false, false, fmt.Errorf("input of %d tokens is longer than MaxTokens", len(toks))
	}
	c := t.compile()
	if c.start < 0 {
		return false, false, fmt.Errorf("no %s rule", t.Start)
	}
	need := len(t.Syms) * (len(toks) + 1)
	d, _ := derivers.Get().(*deriver)
	if d == nil {
		d = &deriver{}
	}
	if cap(d.memo) < need {
		d.memo = make([]memoVal, need)
	}
	d.t, d.toks, d.greedy, d.memo, d.viable, d.err = t, toks, greedy, d.memo[:need], false, nil
	e := d.ends(c, c.start, 0)
	complete = e.has(len(toks))
	viable, err = complete || d.viable, d.err
	for _, i := range d.dirty {
		d.memo[i] = memoVal{}
	}
	d.dirty, d.t, d.toks = d.dirty[:0], nil, nil
	derivers.Put(d)
	return complete, viable, err
}

// Recognise decides membership of toks by exhaustive derivation over the
// table, memoised on (symbol, position). It does not assume the table is
// LL(1); it only refuses left-recursive tables (error).
func (t *Table) Recognise(toks []Kind) (Verdict, error) {
	var v Verdict
	c, vi, err := t.derive(toks, false)
	if err != nil {
		return v, err
	}
	v.Derivable, v.Viable = c, vi
	if c {
		g, _, err := t.derive(toks, true)
		if err != nil {
			return v, err
		}
		v.Greedy = g
	}
	return v, nil
}

// Trace is the outcome of the deterministic derivation the properties
// describe: at every symbol the alternative whose first token is the next
// token is taken; the empty alternative is taken when no non-empty one
// starts with the next token.
type Trace struct {
	Accepted bool
	// Consumed is the number of tokens consumed when the derivation stopped.
	Consumed int
	// Taken lists the non-empty alternatives in the order they were entered.
	Taken []AltRef
	// Empties lists the symbols whose empty alternative was taken, in order.
	Empties []AltRef
	// Ambiguous is set when two alternatives of one rule started with the
	// deciding token (the first in table order was followed).
	Ambiguous bool
	// Why says where a rejected derivation stopped.
	Why string
}

// Uses reports whether the trace took the alternative.
func (tr *Trace) Uses(r AltRef) bool {
	for _, x := range tr.Taken {
		if x == r {
			return true
		}
	}
	for _, x := range tr.Empties {
		if x == r {
			return true
		}
	}
	return false
}

// GreedyTrace runs the deterministic one-token-lookahead derivation over toks
// (which must be followed by end of input for the statement to be accepted).
func (t *Table) GreedyTrace(toks []Kind) *Trace {
	tr := &Trace{}
	pos := 0
	peek := func() Kind {
		if pos < len(toks) {
			return toks[pos]
		}
		return lexer.ItemEOF
	}
	depth := 0
	var sym func(s string) bool
	sym = func(s string) bool {
		depth++
		defer func() { depth-- }()
		if depth > 100000 {
			tr.Why = "derivation too deep"
			return false
		}
		alts, ok := t.Rules[s]
		if !ok {
			tr.Why = "undefined symbol " + s
			return false
		}
		var chosen *Alt
		for i := range alts {
			a := &alts[i]
			if a.Empty() {
				continue
			}
			f, _ := t.AltFirst(a.Elems)
			if f[peek()] {
				if chosen == nil {
					chosen = a
				} else {
					tr.Ambiguous = true
				}
			}
		}
		if chosen == nil {
			for i := range alts {
				if alts[i].Empty() {
					tr.Empties = append(tr.Empties, AltRef{s, i})
					return true
				}
			}
			tr.Why = fmt.Sprintf("no alternative of %s starts with %s at token %d", s, peek(), pos)
			return false
		}
		tr.Taken = append(tr.Taken, AltRef{s, chosen.Idx})
		for _, e := range chosen.Elems {
			if e.IsSym() {
				if !sym(e.Sym) {
					return false
				}
				continue
			}
			if peek() != e.Tok {
				tr.Why = fmt.Sprintf("%s[%d] wants %s at token %d, got %s", s, chosen.Idx, e.Tok, pos, peek())
				return false
			}
			pos++
		}
		return true
	}
	ok := sym(t.Start)
	tr.Consumed = pos
	if ok && pos != len(toks) {
		tr.Why = fmt.Sprintf("statement complete after %d tokens but %d tokens remain", pos, len(toks)-pos)
		ok = false
	}
	tr.Accepted = ok
	return tr
}
