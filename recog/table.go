// Package recog is an independent, table-driven reading of badwolf's BQL
// grammar: a snapshot of the exported grammar table (Table), static analyses
// over it (defined / reachable / productive / FIRST / shortest yields), a CFG
// membership test by exhaustive derivation (Recognise), a model of the
// deterministic "one token decides" derivation the properties describe
// (GreedyTrace), sentence and witness generators, and a renderer that turns a
// sequence of token kinds into BQL text through one canonical lexeme per kind.
//
// Nothing in here calls grammar.Parser: the grammar is read only through
// Grammar (a map), Clause.Elements, Element.Symbol() and Element.Token().
package recog

import (
	"fmt"
	"sort"

	"github.com/google/badwolf/bql/grammar"
	"github.com/google/badwolf/bql/lexer"
	"github.com/google/badwolf/bql/semantic"
)

// Kind is a token kind of the BQL lexer.
type Kind = lexer.TokenType

// Elem is one element of an alternative: a symbol (Sym != "") or a token kind.
type Elem struct {
	Sym string
	Tok Kind
}

// IsSym reports whether the element is a grammar symbol.
func (e Elem) IsSym() bool { return e.Sym != "" }

func (e Elem) String() string {
	if e.IsSym() {
		return e.Sym
	}
	return "'" + e.Tok.String() + "'"
}

// Alt is one alternative (clause) of a rule, in table order.
type Alt struct {
	Sym   string
	Idx   int
	Elems []Elem
}

// Empty reports whether the alternative has no elements.
func (a Alt) Empty() bool { return len(a.Elems) == 0 }

func (a Alt) String() string {
	s := fmt.Sprintf("%s[%d] ->", a.Sym, a.Idx)
	for _, e := range a.Elems {
		s += " " + e.String()
	}
	if a.Empty() {
		s += " (empty)"
	}
	return s
}

// AltRef names an alternative.
type AltRef struct {
	Sym string `json:"sym"`
	Idx int    `json:"alt"`
}

func (r AltRef) String() string { return fmt.Sprintf("%s[%d]", r.Sym, r.Idx) }

// Table is a snapshot of a grammar.Grammar.
type Table struct {
	Start string
	Syms  []string // sorted
	Rules map[string][]Alt

	an   *Analysis
	ctx  map[string]Context
	comp *compiled
}

// FromGrammar snapshots g through its exported surface. An element whose
// Symbol() is empty is read as a token element (the Element type does not
// export its discriminator).
func FromGrammar(g *grammar.Grammar) *Table {
	t := &Table{Start: "START", Rules: map[string][]Alt{}}
	for s, cls := range *g {
		name := string(s)
		t.Syms = append(t.Syms, name)
		alts := make([]Alt, 0, len(cls))
		for i, c := range cls {
			a := Alt{Sym: name, Idx: i}
			if c != nil {
				for _, e := range c.Elements {
					if e.Symbol() != semantic.Symbol("") {
						a.Elems = append(a.Elems, Elem{Sym: string(e.Symbol())})
					} else {
						a.Elems = append(a.Elems, Elem{Tok: e.Token()})
					}
				}
			}
			alts = append(alts, a)
		}
		t.Rules[name] = alts
	}
	sort.Strings(t.Syms)
	return t
}

// NumAlts is the total number of alternatives.
func (t *Table) NumAlts() int {
	n := 0
	for _, a := range t.Rules {
		n += len(a)
	}
	return n
}

// Alts lists every alternative in (symbol, index) order.
func (t *Table) Alts() []Alt {
	var out []Alt
	for _, s := range t.Syms {
		out = append(out, t.Rules[s]...)
	}
	return out
}

// Kinds lists the token kinds of the lexer other than ERROR and EOF, in
// numeric order. The list ends at the first kind whose name is UNKNOWN.
func Kinds() []Kind {
	var ks []Kind
	for k := Kind(0); k < 1000; k++ {
		if k.String() == "UNKNOWN" {
			break
		}
		if k == lexer.ItemError || k == lexer.ItemEOF {
			continue
		}
		ks = append(ks, k)
	}
	return ks
}

// KindSet is a set of token kinds.
type KindSet map[Kind]bool

// Sorted returns the members in numeric order.
func (s KindSet) Sorted() []Kind {
	var ks []Kind
	for k := range s {
		ks = append(ks, k)
	}
	sort.Slice(ks, func(i, j int) bool { return ks[i] < ks[j] })
	return ks
}

// Analysis holds the static facts about a table.
type Analysis struct {
	Undefined     []string           // "PARENT[alt] references SYM" for every reference to a missing rule
	Reachable     map[string]bool    // from Start
	Productive    map[string]bool    // derives at least one finite token string
	Nullable      map[string]bool    // derives the empty string
	First         map[string]KindSet // tokens that can start a non-empty yield
	MinLen        map[string]int     // length of a shortest yield (productive symbols only)
	MinAlt        map[string]int     // an alternative achieving MinLen
	LeftRecursive []string           // symbols that can reach themselves without consuming a token
}

// Analyse computes (once) the static facts.
func (t *Table) Analyse() *Analysis {
	if t.an != nil {
		return t.an
	}
	a := &Analysis{Reachable: map[string]bool{}, Productive: map[string]bool{}, Nullable: map[string]bool{},
		First: map[string]KindSet{}, MinLen: map[string]int{}, MinAlt: map[string]int{}}
	// undefined references
	for _, s := range t.Syms {
		for _, alt := range t.Rules[s] {
			for _, e := range alt.Elems {
				if e.IsSym() {
					if _, ok := t.Rules[e.Sym]; !ok {
						a.Undefined = append(a.Undefined, fmt.Sprintf("%s[%d] references undefined %s", s, alt.Idx, e.Sym))
					}
				}
			}
		}
	}
	// reachability
	var visit func(string)
	visit = func(s string) {
		if a.Reachable[s] {
			return
		}
		if _, ok := t.Rules[s]; !ok {
			return
		}
		a.Reachable[s] = true
		for _, alt := range t.Rules[s] {
			for _, e := range alt.Elems {
				if e.IsSym() {
					visit(e.Sym)
				}
			}
		}
	}
	visit(t.Start)
	// productive + shortest yields (Bellman-Ford style fixpoint)
	for changed := true; changed; {
		changed = false
		for _, s := range t.Syms {
			for _, alt := range t.Rules[s] {
				n, ok := 0, true
				for _, e := range alt.Elems {
					if !e.IsSym() {
						n++
						continue
					}
					if !a.Productive[e.Sym] {
						ok = false
						break
					}
					n += a.MinLen[e.Sym]
				}
				if !ok {
					continue
				}
				if !a.Productive[s] || n < a.MinLen[s] {
					a.Productive[s], a.MinLen[s], a.MinAlt[s] = true, n, alt.Idx
					changed = true
				}
			}
		}
	}
	// nullable
	for changed := true; changed; {
		changed = false
		for _, s := range t.Syms {
			if a.Nullable[s] {
				continue
			}
			for _, alt := range t.Rules[s] {
				all := true
				for _, e := range alt.Elems {
					if !e.IsSym() || !a.Nullable[e.Sym] {
						all = false
						break
					}
				}
				if all {
					a.Nullable[s] = true
					changed = true
					break
				}
			}
		}
	}
	// FIRST
	for _, s := range t.Syms {
		a.First[s] = KindSet{}
	}
	for changed := true; changed; {
		changed = false
		for _, s := range t.Syms {
			for _, alt := range t.Rules[s] {
				for _, e := range alt.Elems {
					if !e.IsSym() {
						if !a.First[s][e.Tok] {
							a.First[s][e.Tok] = true
							changed = true
						}
						break
					}
					for k := range a.First[e.Sym] {
						if !a.First[s][k] {
							a.First[s][k] = true
							changed = true
						}
					}
					if !a.Nullable[e.Sym] {
						break
					}
				}
			}
		}
	}
	// left recursion: s =>* s ... without consuming a token
	for _, s := range t.Syms {
		seen := map[string]bool{}
		var lr func(string) bool
		lr = func(x string) bool {
			for _, alt := range t.Rules[x] {
				for _, e := range alt.Elems {
					if !e.IsSym() {
						break
					}
					if e.Sym == s {
						return true
					}
					if !seen[e.Sym] {
						seen[e.Sym] = true
						if lr(e.Sym) {
							return true
						}
					}
					if !a.Nullable[e.Sym] {
						break
					}
				}
			}
			return false
		}
		if lr(s) {
			a.LeftRecursive = append(a.LeftRecursive, s)
		}
	}
	t.an = a
	return a
}

// AltFirst is the set of tokens that can start a non-empty yield of the
// element sequence, and whether the sequence can yield the empty string.
func (t *Table) AltFirst(elems []Elem) (KindSet, bool) {
	a := t.Analyse()
	f := KindSet{}
	for _, e := range elems {
		if !e.IsSym() {
			f[e.Tok] = true
			return f, false
		}
		for k := range a.First[e.Sym] {
			f[k] = true
		}
		if !a.Nullable[e.Sym] {
			return f, false
		}
	}
	return f, true
}

// MinYield returns a shortest token string derived by the element sequence
// (every symbol expanded through its MinAlt). ok is false when some symbol is
// not productive.
func (t *Table) MinYield(elems []Elem) (out []Kind, ok bool) {
	a := t.Analyse()
	ok = true
	var exp func(es []Elem, depth int)
	exp = func(es []Elem, depth int) {
		for _, e := range es {
			if !ok {
				return
			}
			if !e.IsSym() {
				out = append(out, e.Tok)
				continue
			}
			if !a.Productive[e.Sym] || depth > 10000 {
				ok = false
				return
			}
			exp(t.Rules[e.Sym][a.MinAlt[e.Sym]].Elems, depth+1)
		}
	}
	exp(elems, 0)
	return out, ok
}

// SameShape compares two tables: same symbols and, per symbol, the same
// sequence of alternatives with the same element sequences. It returns a list
// of differences (empty when identical).
func SameShape(a, b *Table) []string {
	var diffs []string
	for _, s := range a.Syms {
		if _, ok := b.Rules[s]; !ok {
			diffs = append(diffs, fmt.Sprintf("symbol %s missing from second table", s))
		}
	}
	for _, s := range b.Syms {
		if _, ok := a.Rules[s]; !ok {
			diffs = append(diffs, fmt.Sprintf("symbol %s missing from first table", s))
		}
	}
	for _, s := range a.Syms {
		ra, rb := a.Rules[s], b.Rules[s]
		if rb == nil {
			continue
		}
		if len(ra) != len(rb) {
			diffs = append(diffs, fmt.Sprintf("%s: %d alternatives vs %d", s, len(ra), len(rb)))
			continue
		}
		for i := range ra {
			if ra[i].String() != rb[i].String() {
				diffs = append(diffs, fmt.Sprintf("%s vs %s", ra[i], rb[i]))
			}
		}
	}
	return diffs
}

// Prepare computes every lazily cached structure of the table (analysis,
// compiled rules, contexts) so that the table can be shared by goroutines.
func (t *Table) Prepare() *Table {
	t.Analyse()
	t.compile()
	t.Contexts()
	return t
}
