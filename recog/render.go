package recog

import (
	"strings"

	"github.com/google/badwolf/bql/lexer"
)

// Lex runs the real lexer over text and drains its channel completely (the
// producer goroutine therefore always exits). The terminal EOF token is kept.
func Lex(text string) []lexer.Token {
	var out []lexer.Token
	for t := range lexer.New(text, 0) {
		out = append(out, t)
	}
	return out
}

// KindsOf returns the kinds of the tokens, without a trailing EOF. ok is false
// when the stream does not end in exactly one EOF (for instance it ends in an
// ERROR token, which then stays in the list).
func KindsOf(toks []lexer.Token) (ks []Kind, ok bool) {
	for i, t := range toks {
		if t.Type == lexer.ItemEOF && i == len(toks)-1 {
			return ks, true
		}
		ks = append(ks, t.Type)
	}
	return ks, false
}

// LexKinds lexes text and returns its token kinds (see KindsOf).
func LexKinds(text string) ([]Kind, bool) { return KindsOf(Lex(text)) }

// canonical lexemes, one per kind (keywords in lower case).
var lexemes = map[Kind]string{
	lexer.ItemQuery: "select", lexer.ItemInsert: "insert", lexer.ItemDelete: "delete",
	lexer.ItemCreate: "create", lexer.ItemConstruct: "construct", lexer.ItemDeconstruct: "deconstruct",
	lexer.ItemDrop: "drop", lexer.ItemGraph: "graph", lexer.ItemData: "data", lexer.ItemInto: "into",
	lexer.ItemFrom: "from", lexer.ItemWhere: "where", lexer.ItemAs: "as", lexer.ItemType: "type",
	lexer.ItemID: "id", lexer.ItemAt: "at", lexer.ItemIn: "in", lexer.ItemBefore: "before",
	lexer.ItemAfter: "after", lexer.ItemBetween: "between", lexer.ItemCount: "count",
	lexer.ItemDistinct: "distinct", lexer.ItemSum: "sum", lexer.ItemGroup: "group", lexer.ItemBy: "by",
	lexer.ItemOrder: "order", lexer.ItemHaving: "having", lexer.ItemAsc: "asc", lexer.ItemDesc: "desc",
	lexer.ItemLimit: "limit", lexer.ItemBinding: "?a", lexer.ItemNode: "/u<a>", lexer.ItemBlankNode: "_:b",
	lexer.ItemLiteral: `"1"^^type:int64`, lexer.ItemPredicate: `"p"@[]`, lexer.ItemPredicateBound: `"p"@[,]`,
	lexer.ItemTime: "2006-01-02T15:04:05Z", lexer.ItemLBracket: "{", lexer.ItemRBracket: "}",
	lexer.ItemLPar: "(", lexer.ItemRPar: ")", lexer.ItemDot: ".", lexer.ItemSemicolon: ";",
	lexer.ItemComma: ",", lexer.ItemLT: "<", lexer.ItemGT: ">", lexer.ItemEQ: "=", lexer.ItemNot: "not",
	lexer.ItemAnd: "and", lexer.ItemOr: "or", lexer.ItemShow: "show", lexer.ItemGraphs: "graphs",
	lexer.ItemOptional: "optional", lexer.ItemFilter: "filter", lexer.ItemFilterFunction: "latest",
}

// GlobalBoundLexeme is the lexeme used for a PREDICATE_BOUND token that
// directly follows BETWEEN (the global time bound form).
const GlobalBoundLexeme = "2006-01-02T15:04:05Z,2006-01-03T15:04:05Z"

// Lexeme returns the canonical lexeme of kind k when it follows a token of
// kind prev (prev = ItemEOF at the start). ok is false for kinds without a
// lexeme (ERROR, EOF, unknown kinds).
func Lexeme(prev, k Kind) (string, bool) {
	if k == lexer.ItemPredicateBound && prev == lexer.ItemBetween {
		return GlobalBoundLexeme, true
	}
	s, ok := lexemes[k]
	return s, ok
}

// RenderRaw joins the canonical lexemes with single spaces (no space between
// a filter function and the parenthesis that must follow it). It does not
// check that the text lexes back to ks.
func RenderRaw(ks []Kind) (string, bool) {
	var b strings.Builder
	prev := lexer.ItemEOF
	for i, k := range ks {
		s, ok := Lexeme(prev, k)
		if !ok {
			return "", false
		}
		if i > 0 && !(prev == lexer.ItemFilterFunction && k == lexer.ItemLPar) {
			b.WriteByte(' ')
		}
		b.WriteString(s)
		prev = k
	}
	return b.String(), true
}

// Render turns a sequence of token kinds into text and confirms, by running
// the real lexer over it, that the text produces exactly that sequence
// followed by EOF. ok is false when no text built from the canonical lexemes
// produces the sequence (for instance a TIME token outside a time context, or
// a keyword directly after FILTER, which the lexer reads as a filter function).
func Render(ks []Kind) (text string, ok bool) {
	text, ok = RenderRaw(ks)
	if !ok {
		return "", false
	}
	got, clean := LexKinds(text)
	if !clean || len(got) != len(ks) {
		return text, false
	}
	for i := range ks {
		if got[i] != ks[i] {
			return text, false
		}
	}
	return text, true
}

// KindNames renders kinds as their names.
func KindNames(ks []Kind) []string {
	out := make([]string, len(ks))
	for i, k := range ks {
		out[i] = k.String()
	}
	return out
}
