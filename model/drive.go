package model

import (
	"context"
	"fmt"
	"sort"

	"github.com/google/badwolf/storage"
	"github.com/google/badwolf/triple"
)

// Ctx is the context passed to every driver call.
var Ctx = context.Background()

// ListTriples drains g.Triples with the given options.
func ListTriples(g storage.Graph, lo *storage.LookupOptions) ([]*triple.Triple, error) {
	ch := make(chan *triple.Triple)
	var out []*triple.Triple
	done := make(chan struct{})
	go func() {
		for t := range ch {
			out = append(out, t)
		}
		close(done)
	}()
	err := g.Triples(Ctx, lo, ch)
	if err != nil {
		// The contract says the channel is closed also on error; do not hang if not.
		select {
		case <-done:
		default:
			return nil, fmt.Errorf("%v (and channel left open)", err)
		}
		return out, err
	}
	<-done
	return out, nil
}

// GraphNames drains s.GraphNames into a sorted list.
func GraphNames(s storage.Store) ([]string, error) {
	ch := make(chan string)
	var out []string
	done := make(chan struct{})
	go func() {
		for n := range ch {
			out = append(out, n)
		}
		close(done)
	}()
	if err := s.GraphNames(Ctx, ch); err != nil {
		return nil, err
	}
	<-done
	sort.Strings(out)
	return out, nil
}
