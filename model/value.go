// Package model holds the boring reference models the checks compare badwolf
// against. Nothing here uses badwolf's UUIDs, String() forms or indexes: values
// are identified structurally through their exported accessors only.
package model

import (
	"fmt"
	"math"
	"sort"
	"strings"
	"time"

	"github.com/google/badwolf/triple"
	"github.com/google/badwolf/triple/literal"
	"github.com/google/badwolf/triple/node"
	"github.com/google/badwolf/triple/predicate"
)

// NodeKey is the structural identity of a node: (type, id).
func NodeKey(n *node.Node) string {
	return "N(" + fmt.Sprintf("%q,%q", n.Type().String(), n.ID().String()) + ")"
}

// InstantKey identifies a time instant regardless of zone (no UnixNano: it
// overflows outside 1678-2262).
func InstantKey(t time.Time) string {
	return fmt.Sprintf("%d.%09d", t.Unix(), t.Nanosecond())
}

// PredKey is the structural identity of a predicate: (id, kind, instant).
func PredKey(p *predicate.Predicate) string {
	if p.Type() == predicate.Immutable {
		return fmt.Sprintf("P(%q,imm)", string(p.ID()))
	}
	ta, _ := p.TimeAnchor()
	return fmt.Sprintf("P(%q,@%s)", string(p.ID()), InstantKey(*ta))
}

// LitKey is the structural identity of a literal: (type, value).
func LitKey(l *literal.Literal) string {
	switch l.Type() {
	case literal.Bool:
		v, _ := l.Bool()
		return fmt.Sprintf("L(bool,%v)", v)
	case literal.Int64:
		v, _ := l.Int64()
		return fmt.Sprintf("L(int64,%d)", v)
	case literal.Float64:
		v, _ := l.Float64()
		return fmt.Sprintf("L(float64,%016x)", math.Float64bits(v))
	case literal.Text:
		v, _ := l.Text()
		return fmt.Sprintf("L(text,%q)", v)
	case literal.Blob:
		v, _ := l.Blob()
		return fmt.Sprintf("L(blob,%x)", v)
	}
	return fmt.Sprintf("L(?%d)", l.Type())
}

// ObjKey is the structural identity of an object: kind + value.
func ObjKey(o *triple.Object) string {
	if n, err := o.Node(); err == nil {
		return "O" + NodeKey(n)
	}
	if l, err := o.Literal(); err == nil {
		return "O" + LitKey(l)
	}
	if p, err := o.Predicate(); err == nil {
		return "O" + PredKey(p)
	}
	return "O(invalid)"
}

// TripleKey is the structural identity of a triple.
func TripleKey(t *triple.Triple) string {
	return NodeKey(t.Subject()) + " " + PredKey(t.Predicate()) + " " + ObjKey(t.Object())
}

// ---- constructors that abort on malformed test vocabulary ------------------

func N(typ, id string) *node.Node {
	n, err := node.NewNodeFromStrings(typ, id)
	if err != nil {
		panic(err)
	}
	return n
}

func PI(id string) *predicate.Predicate {
	p, err := predicate.NewImmutable(id)
	if err != nil {
		panic(err)
	}
	return p
}

func PT(id string, t time.Time) *predicate.Predicate {
	p, err := predicate.NewTemporal(id, t)
	if err != nil {
		panic(err)
	}
	return p
}

func L(t literal.Type, v interface{}) *literal.Literal {
	l, err := literal.DefaultBuilder().Build(t, v)
	if err != nil {
		panic(err)
	}
	return l
}

func ON(n *node.Node) *triple.Object           { return triple.NewNodeObject(n) }
func OL(l *literal.Literal) *triple.Object     { return triple.NewLiteralObject(l) }
func OP(p *predicate.Predicate) *triple.Object { return triple.NewPredicateObject(p) }

func T(s *node.Node, p *predicate.Predicate, o *triple.Object) *triple.Triple {
	t, err := triple.New(s, p, o)
	if err != nil {
		panic(err)
	}
	return t
}

// Reference instants used throughout the checks.
var (
	T0 = time.Date(2010, 1, 1, 0, 0, 0, 0, time.UTC)
	T1 = time.Date(2012, 4, 10, 4, 21, 0, 0, time.UTC)
	T2 = time.Date(2014, 4, 10, 4, 21, 0, 0, time.UTC)
	T3 = time.Date(2016, 4, 10, 4, 21, 0, 0, time.UTC)
)

// ---- StoreModel -------------------------------------------------------------

// Graph is a set of triples keyed by structural identity.
type Graph map[string]*triple.Triple

// Store is map name -> set of triples.
type Store map[string]Graph

func (g Graph) Add(ts ...*triple.Triple) {
	for _, t := range ts {
		g[TripleKey(t)] = t
	}
}

func (g Graph) Remove(ts ...*triple.Triple) {
	for _, t := range ts {
		delete(g, TripleKey(t))
	}
}

func (g Graph) Has(t *triple.Triple) bool { _, ok := g[TripleKey(t)]; return ok }

func (g Graph) Clone() Graph {
	c := Graph{}
	for k, v := range g {
		c[k] = v
	}
	return c
}

// Keys returns the sorted structural keys.
func (g Graph) Keys() []string {
	ks := make([]string, 0, len(g))
	for k := range g {
		ks = append(ks, k)
	}
	sort.Strings(ks)
	return ks
}

// Canon is the canonical form used to deduplicate model states.
func (g Graph) Canon() string { return strings.Join(g.Keys(), "\n") }

func (s Store) Clone() Store {
	c := Store{}
	for k, v := range s {
		c[k] = v.Clone()
	}
	return c
}

func (s Store) Names() []string {
	ns := make([]string, 0, len(s))
	for k := range s {
		ns = append(ns, k)
	}
	sort.Strings(ns)
	return ns
}

func (s Store) Canon() string {
	var b strings.Builder
	for _, n := range s.Names() {
		b.WriteString("[" + n + "]\n" + s[n].Canon() + "\n")
	}
	return b.String()
}

// KeysOf maps triples to their sorted structural keys (a multiset: duplicates kept).
func KeysOf(ts []*triple.Triple) []string {
	ks := make([]string, 0, len(ts))
	for _, t := range ts {
		ks = append(ks, TripleKey(t))
	}
	sort.Strings(ks)
	return ks
}

// SameStrings compares two sorted string slices.
func SameStrings(a, b []string) bool {
	if len(a) != len(b) {
		return false
	}
	for i := range a {
		if a[i] != b[i] {
			return false
		}
	}
	return true
}
